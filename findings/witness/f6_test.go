package wit

import (
	"testing"

	"github.com/LiskHQ/lisk-engine/pkg/crypto"
	"github.com/LiskHQ/lisk-engine/pkg/trie/rmt"
	"github.com/LiskHQ/lisk-engine/pkg/trie/smt"
)

func TestF6VerifiersOnMalformedProofs(t *testing.T) {
	key := crypto.Hash([]byte("k"))
	long := make([]byte, 40) // 320-bit bitmap for a 256-bit key
	for i := range long {
		long[i] = 0xff
	}
	try(t, "smt.Verify over-long bitmap on an inclusion query", func() {
		ok, err := smt.Verify([][]byte{key}, &smt.Proof{SiblingHashes: nil, Queries: []*smt.QueryProof{{Key: key, Value: []byte{1}, Bitmap: long}}}, crypto.Hash([]byte("r")), 32)
		t.Log(ok, err)
	})
	try(t, "rmt.VerifyProof with too few sibling hashes", func() {
		ok := rmt.VerifyProof([][]byte{crypto.Hash([]byte("q"))}, &rmt.Proof{Size: 4, Idxs: []uint64{4}, SiblingHashes: [][]byte{}}, crypto.Hash([]byte("r")))
		t.Log(ok)
	})
	try(t, "rmt.VerifyRightWitness on the empty tree", func() {
		ok := rmt.VerifyRightWitness(0, [][]byte{}, [][]byte{}, crypto.Hash([]byte{}))
		t.Log(ok)
	})
}
