package wit

import (
	"bytes"
	"testing"

	"github.com/LiskHQ/lisk-engine/pkg/blockchain"
	"github.com/LiskHQ/lisk-engine/pkg/crypto"
	"github.com/LiskHQ/lisk-engine/pkg/db"
	"github.com/LiskHQ/lisk-engine/pkg/db/diffdb"
	"github.com/LiskHQ/lisk-engine/pkg/statemachine"
	"github.com/LiskHQ/lisk-engine/pkg/trie/smt"
)

func catch(f func()) (p interface{}) {
	defer func() { p = recover() }()
	f()
	return nil
}

// F3: header truncated right after the key of the bool field 12 (0x60)
func TestF3ReadBoolPanic(t *testing.T) {
	h := &blockchain.BlockHeader{Version: 2, Timestamp: 1, Height: 1, PreviousBlockID: make([]byte, 32), GeneratorAddress: make([]byte, 20),
		TransactionRoot: make([]byte, 32), AssetRoot: make([]byte, 32), EventRoot: make([]byte, 32), StateRoot: make([]byte, 32),
		ValidatorsHash: make([]byte, 32), AggregateCommit: &blockchain.AggregateCommit{}, Signature: make([]byte, 64)}
	enc := h.Encode()
	idx := bytes.LastIndex(enc[:len(enc)-100], []byte{0x60})
	if idx < 0 {
		t.Fatal("no key")
	}
	trunc := enc[:idx+1]
	p := catch(func() { _, _ = blockchain.NewBlockHeader(trunc) })
	t.Logf("F3 panic=%v", p)
}

// F4: short aggregation bits
func TestF4BitsPanic(t *testing.T) {
	keys := make([][]byte, 9)
	for i := range keys {
		keys[i] = crypto.BLSKeyGen(crypto.RandomBytes(32)).PublicKey
	}
	w := make([]uint64, 9)
	p := catch(func() { crypto.BLSVerifyWeightedAggSig(keys, []byte{0x01}, make([]byte, 96), w, 1, []byte("m")) })
	t.Logf("F4 panic=%v", p)
}

// F7: Iterate through a prefix view sees entries of a sibling view
func TestF7IteratePrefix(t *testing.T) {
	d, _ := db.NewInMemoryDB()
	root := diffdb.New(d, []byte{9})
	a := root.WithPrefix([]byte{1})
	b := root.WithPrefix([]byte{2})
	a.Set([]byte("k1"), []byte("v1"))
	got := b.Iterate([]byte{}, -1, false)
	for _, kv := range got {
		t.Logf("F7 view b sees key=%x val=%s", kv.Key(), kv.Value())
	}
	t.Logf("F7 len=%d (expected 0)", len(got))
}

// F8: limit applied before deleted entries are filtered
func TestF8LimitBeforeFilter(t *testing.T) {
	d, _ := db.NewInMemoryDB()
	d.Set([]byte{9, 1}, []byte("a"))
	d.Set([]byte{9, 2}, []byte("b"))
	s := diffdb.New(d, []byte{9})
	s.Del([]byte{2})
	got := s.Range([]byte{0}, []byte{255}, 1, true)
	t.Logf("F8 reverse limit1 after deleting key 2: len=%d (expected 1: key 1)", len(got))
}

// F13: revertible event survives restore
func TestF13EventRevert(t *testing.T) {
	l := statemachine.NewEventLogger(1)
	l.SetDefaultTopic([]byte{1})
	l.CreateSnapshot()
	_ = l.Add("mod", "evt", []byte{1}, nil)
	l.RestoreSnapshot()
	t.Logf("F13 events after restore=%d (expected 0)", len(l.Events()))
}

// F14 is about framework.stateSMTBatch (unexported); show trie semantics: empty value deletes, emptyHash does not
func TestF14Sentinel(t *testing.T) {
	d, _ := db.NewInMemoryDB()
	tr := smt.NewTrie(nil, 38)
	k := make([]byte, 38)
	r1, _ := tr.Update(d, [][]byte{k}, [][]byte{crypto.Hash([]byte("v"))})
	r2, _ := tr.Update(d, [][]byte{k}, [][]byte{crypto.Hash([]byte{})})
	tr2 := smt.NewTrie(r1, 38)
	r3, _ := tr2.Update(d, [][]byte{k}, [][]byte{{}})
	t.Logf("F14 root after set=%x\n after 'delete' with emptyHash=%x\n after delete with empty value=%x\n emptyHash=%x", r1, r2, r3, crypto.Hash([]byte{}))
}
