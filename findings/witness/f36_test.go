package wit

import (
	"testing"

	"github.com/LiskHQ/lisk-engine/pkg/db"
)

// F36 (C12): a reverse range scan started from SeekLT(upperBound(end)) and never compared the
// keys with end: keys that merely have end as a prefix ("aba" for end "ab") are greater than
// end, were skipped by the forward scan and returned by the reverse scan.
func TestF36ReverseRangeKeepsUpperBound(t *testing.T) {
	d, err := db.NewInMemoryDB()
	if err != nil {
		t.Fatal(err)
	}
	for _, k := range []string{"a", "ab", "aba", "abz", "ac"} {
		d.Set([]byte(k), []byte("v"))
	}
	keys := func(reverse bool) []string {
		var out []string
		for _, kv := range d.IterateRange([]byte("a"), []byte("ab"), -1, reverse) {
			out = append(out, string(kv.Key()))
		}
		return out
	}
	fwd, rev := keys(false), keys(true)
	if len(fwd) != 2 || fwd[0] != "a" || fwd[1] != "ab" {
		t.Errorf("forward scan of [a, ab]: %v", fwd)
	}
	if len(rev) != 2 || rev[0] != "ab" || rev[1] != "a" {
		t.Errorf("reverse scan of [a, ab] returned keys outside the bounds: %v", rev)
	}
	// with a limit the out-of-range keys also displace the ones inside
	var lim []string
	for _, kv := range d.IterateRange([]byte("a"), []byte("ab"), 1, true) {
		lim = append(lim, string(kv.Key()))
	}
	if len(lim) != 1 || lim[0] != "ab" {
		t.Errorf("reverse scan of [a, ab] with limit 1: %v", lim)
	}
}
