package wit

import (
	"bytes"
	"testing"

	"github.com/LiskHQ/lisk-engine/pkg/db"
	"github.com/LiskHQ/lisk-engine/pkg/db/diffdb"
)

// F34 (C12): RestoreSnapshot re-pointed only the receiver's overlay; prefix views created
// before the restore kept the discarded overlay. Reads through such a view still returned
// writes the restore had undone, and writes through it were lost on Commit.
func TestF34RestoreSnapshotWithLiveView(t *testing.T) {
	store, err := db.NewInMemoryDB()
	if err != nil {
		t.Fatal(err)
	}
	root := diffdb.New(store, []byte{1})
	view := root.WithPrefix([]byte{2})
	id := root.Snapshot()
	view.Set([]byte("k"), []byte("undone"))
	if err := root.RestoreSnapshot(id); err != nil {
		t.Fatal(err)
	}
	if v, ok := view.Get([]byte("k")); ok {
		t.Errorf("after restoring the snapshot the view still returns %q for a key set after the snapshot", v)
	}
	view.Set([]byte("k2"), []byte("kept"))
	if v, ok := root.Get([]byte{2, 'k', '2'}); !ok || !bytes.Equal(v, []byte("kept")) {
		t.Errorf("a write through the view after the restore is invisible through the root (got %q,%v): it would be lost on Commit", v, ok)
	}
}
